(** C15 — lag-1 autocorrelation is a Pearson correlation with mean-filled gaps. Statements only.
    [ps] is the list of pairs (X_i, Y_i) = (data[i], data[i+1]); [None] marks a missing cell. *)
From Coq Require Import ZArith Reals Lra List.
From HDC Require Import Base.Prelude Base.Ops Model.Autocorr Proofs.SmoothersProofs Proofs.AutocorrProofs.
Open Scope R_scope.

(** the kernel's single-pass expression equals rho = cov / (sd_X sd_Y) of the mean-filled vectors *)
Theorem C15_formula_is_pearson : forall ps,
  let s := fold_left (step OpsR) ps (sums0 OpsR) in
  0 < NXY ps -> 0 < varX (SX ps / NX ps) ps -> 0 < varY (SY ps / NY ps) ps ->
  let A := ((n_x s * n_y s) * s_xy s - (n_y s * s_x s) * s_y_ s - (n_x s * s_y s) * s_x_ s) + (n_xy s * s_x s) * s_y s in
  let vx := (n_x s * s_xx s - s_x s * s_x s) * n_x s in
  let vy := (n_y s * s_yy s - s_y s * s_y s) * n_y s in
  (A * (1 / sqrt vx)) * (1 / sqrt vy) = rho ps /\
  vx = NX ps ^ 2 * varX (SX ps / NX ps) ps /\ vy = NY ps ^ 2 * varY (SY ps / NY ps) ps.
Proof. exact formula_is_pearson. Qed.
Print Assumptions C15_formula_is_pearson.

(** [rho] really is about the mean-filled vectors: a missing cell sits on the mean of the valid
    cells of its vector, and filling keeps that mean *)
Theorem C15_mean_filling_keeps_the_mean : forall ps,
  NX ps <> 0 -> rsum (filledX (SX ps / NX ps) ps) = (SX ps / NX ps) * INR (length ps).
Proof. exact filled_mean. Qed.
Print Assumptions C15_mean_filling_keeps_the_mean.

(** no valid pair => 0 (the model's early return) *)
Theorem C15_no_pair_is_zero : forall thr ps,
  NXY ps = 0 -> finish OpsR thr (fold_left (step OpsR) ps (sums0 OpsR)) = 0.
Proof.
  intros thr ps H. unfold finish. destruct (fold_step ps (sums0 OpsR)) as (_ & _ & _ & a4 & _). cbn zeta in a4.
  rewrite a4, H. cbn [sums0 n_xy feqb f0 OpsR]. replace (0 + 0) with 0 by ring.
  replace (Reqb 0 0) with true; [reflexivity|]. symmetry. now apply Reqb_true.
Qed.
Print Assumptions C15_no_pair_is_zero.

(** the value always lies in [-1, 1] *)
Theorem C15_range : forall ps,
  0 < varX (SX ps / NX ps) ps -> 0 < varY (SY ps / NY ps) ps -> -1 <= rho ps <= 1.
Proof. exact rho_range. Qed.
Print Assumptions C15_range.

(** unchanged by a positive affine rescaling of the valid cells *)
Theorem C15_affine_invariant : forall a b ps, 0 < a -> 0 < NX ps -> 0 < NY ps -> rho (amap_pairs a b ps) = rho ps.
Proof. exact rho_affine. Qed.
Print Assumptions C15_affine_invariant.

(** ... nor by a negative one: flipping the sign of the whole series leaves its autocorrelation alone *)
Theorem C15_reflection_invariant : forall a b ps, a < 0 -> 0 < NX ps -> 0 < NY ps -> rho (amap_pairs a b ps) = rho ps.
Proof. exact rho_affine_neg. Qed.
Print Assumptions C15_reflection_invariant.
