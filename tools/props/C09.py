"""C09 — SPI calibration window and grouping select exactly the intended samples."""
import numpy as np

from vlib import core
from vlib.core import zlist, zlit, blit, optlit

PRE = "From HDC Require Import Base.Prelude Model.Calib Corr.C09.\n"


def gen_axis(rng, n, regular=None):
    if regular is None:
        regular = rng.random() < 0.5
    if regular:
        step = int(rng.choice([24, 240, 120, 384]))
        start = int(rng.integers(0, 500))
        return [start + i * step for i in range(n)]
    return sorted(int(v) for v in rng.choice(np.arange(0, 300 * n + 10), size=n, replace=False))


def pick_date(rng, axis):
    r = rng.random()
    if r < 0.35:
        return int(rng.choice(axis))                       # on a step
    if r < 0.7:
        i = int(rng.integers(0, len(axis)))                # between steps
        lo = axis[i]
        hi = axis[i + 1] if i + 1 < len(axis) else lo + 50
        return int(rng.integers(lo, hi + 1))
    if r < 0.85:
        return axis[0] - int(rng.integers(1, 100))          # before
    return axis[-1] + int(rng.integers(1, 100))             # after


def labelings(rng, n, k, interleaved):
    if interleaved:
        lab = [i % k for i in range(n)]
    else:
        lab = sorted(int(v) for v in rng.integers(0, k, size=n))
        for g in range(k):
            if g not in lab:
                lab[int(rng.integers(0, n))] = g
        lab = sorted(lab) if set(lab) == set(range(k)) else [i % k for i in range(n)]
    return lab


def count_window(ts, b, e):
    return sum(1 for t in ts if b <= t <= e)


def run(ctx):
    ctx.proofs(["Props/C09.v"])
    rng = np.random.default_rng(ctx.seed)
    N = 4 if ctx.thorough else 1
    # ---------------- get_calibration_indices
    cal = []
    for _ in range(250 * N):
        n = int(rng.integers(3, 121))
        axis = gen_axis(rng, n)
        b, e = pick_date(rng, axis), pick_date(rng, axis)
        if rng.random() < 0.7 and b > e:
            b, e = e, b
        c = dict(time=axis, b=b, e=e, as_str=bool(rng.random() < 0.2))
        if rng.random() < 0.6:
            k = int(rng.integers(1, min(36, n) + 1))
            c["groups"] = labelings(rng, n, k, rng.random() < 0.6)
            c["num_groups"] = k if rng.random() < 0.5 else None
            c["k"] = len(set(c["groups"]))
        cal.append(c)
    # ---------------- to_linspace
    lin = []
    for _ in range(120 * N):
        n = int(rng.integers(1, 60))
        kind = rng.random()
        if kind < 0.4:
            x = [int(v) for v in rng.integers(-20, 40, size=n)]
            lin.append(dict(x=x, dtype="int64", kind="int"))
        elif kind < 0.8:
            pool = [str(v) for v in rng.integers(0, 40, size=8)] + ["D1", "D2", "d1", "10", "2", "02", "a", "B", ""]
            x = [str(rng.choice(pool)) for _ in range(n)]
            lin.append(dict(x=x, dtype="str", kind="str"))
        else:
            x = [int(v) for v in rng.integers(0, 5, size=(n // 2 + 1) * 2)]
            lin.append(dict(x=x, dtype="int16", kind="int", shape=[2, n // 2 + 1]))
    # ---------------- accessor
    spi = []
    for _ in range(60 * N):
        n = int(rng.integers(3, 60))
        axis = gen_axis(rng, n)
        b = None if rng.random() < 0.25 else pick_date(rng, axis)
        e = None if rng.random() < 0.25 else pick_date(rng, axis)
        if b is not None and e is not None and b > e and rng.random() < 0.8:
            b, e = e, b
        data = np.maximum(1, np.round(rng.gamma(2.0, 30.0, size=(1, 2, n)))).astype(int)
        data[0, 1, rng.random(n) < 0.1] = -9999
        c = dict(time=axis, b=b, e=e, data=data.tolist(), nodata=-9999, as_str=bool(rng.random() < 0.2))
        if rng.random() < 0.65:
            k = int(rng.integers(1, min(8, n // 2) + 1))
            base = labelings(rng, n, k, rng.random() < 0.6)
            style = rng.random()
            names = {g: g for g in range(k)}
            if style < 0.3:
                names = {g: "D%d" % (g + 1) for g in range(k)}
            elif style < 0.6:
                perm = rng.permutation(k)
                names = {g: int(perm[g]) * 3 + 2 for g in range(k)}       # gapped, unordered ints ('10' < '2' as str)
            c["groups"] = [names[g] for g in base]
            perm2 = rng.permutation(k)
            c["alt_labelings"] = [[int(perm2[g]) for g in base], ["k%02d" % (9 - g) for g in base]]
        spi.append(c)
    # bounds given as date-only strings (they name the instant 00:00, not the whole day) on axes with steps later in that day
    for it in range(12 * N):
        n = int(rng.integers(6, 40))
        axis = sorted(set(int(24 * d + h) for d, h in zip(np.cumsum(rng.integers(0, 3, size=n)), rng.choice([0, 6, 12, 18], size=n))))
        if len(axis) < 5:
            continue
        days = sorted(set(a // 24 for a in axis))
        b = 24 * int(days[int(rng.integers(0, len(days) // 2))])
        e = 24 * int(days[int(rng.integers(len(days) // 2, len(days)))])
        data = np.maximum(1, np.round(rng.gamma(2.0, 30.0, size=(1, 2, len(axis))))).astype(int)
        c = dict(time=axis, b=b, e=e, data=data.tolist(), nodata=-9999, as_str="date")
        if it % 2:
            c["groups"] = [int(i % 2) for i in range(len(axis))]
            c["alt_labelings"] = []
        spi.append(c)
        cal.append(dict(time=axis, b=b, e=e, as_str="date", groups=c.get("groups"), k=2 if it % 2 else None))
    payload = dict(calidx=[{k: v for k, v in c.items() if k != "k"} for c in cal],
                   linspace=[{k: v for k, v in c.items() if k != "kind"} for c in lin], spi=spi)
    res, log = core.run_impl("c09_impl.py", payload, timeout=2400)
    if res is None:
        ctx.violation("implementation run failed", dict(kind="impl-crash", log=log[-3000:]), found_input=False)
        return
    spec_fail = []
    dist = dict(calidx=len(cal), calidx_grouped=0, linspace=len(lin), spi=len(spi), spi_grouped=0, spi_raised=0,
                between_steps=0, decompositions=0, relabelings=0)
    # ---- calidx
    gcases, gmeta = [], []
    for c, r in zip(cal, res["calidx"]):
        m = dict(kind="get_calibration_indices", case={k: c[k] for k in ("time", "b", "e") if k in c},
                 groups=c.get("groups"), out=r.get("out"), error=r.get("error"))
        if "error" in r:
            spec_fail.append((m, "raised %s" % r["error"]))
            continue
        if c["b"] not in c["time"] or c["e"] not in c["time"]:
            dist["between_steps"] += 1
        if c.get("groups") is None:
            want = [[sum(1 for t in c["time"] if t < c["b"]), sum(1 for t in c["time"] if t <= c["e"])]]
            gl = "None"
        else:
            dist["calidx_grouped"] += 1
            want = []
            for g in range(c["k"]):
                sub = [t for t, h in zip(c["time"], c["groups"]) if h == g]
                want.append([sum(1 for t in sub if t < c["b"]), sum(1 for t in sub if t <= c["e"])])
            gl = "(Some (%s, %d%%nat))" % (zlist(c["groups"]), c["k"])
        if r["out"] != want:
            spec_fail.append((m, "indices %s, the steps with begin <= t <= end are %s" % (r["out"], want)))
        gcases.append("GC %s %s %s %s [%s]" % (zlist(c["time"]), gl, zlit(c["b"]), zlit(c["e"]),
                                               "; ".join("(%s, %s)" % (zlit(a), zlit(b)) for a, b in r["out"])))
        gmeta.append(m)
    # ---- to_linspace
    lcases, lmeta = [], []
    for c, r in zip(lin, res["linspace"]):
        x = c["x"]
        m = dict(kind="to_linspace", x=x, lin=r["lin"], keys=r["keys"])
        keys = sorted(set(x))
        if [str(k) if c["kind"] == "str" else k for k in r["keys"]] != keys:
            spec_fail.append((m, "keys are not the sorted unique values"))
        for i in range(len(x)):
            for j in range(i):
                if (r["lin"][i] == r["lin"][j]) != (x[i] == x[j]):
                    spec_fail.append((m, "positions %d,%d: partition not preserved" % (j, i)))
                    break
        if sorted(set(r["lin"])) != list(range(len(keys))):
            spec_fail.append((m, "labels are not exactly 0..k-1"))
        rank = {k: i for i, k in enumerate(keys)}
        code = (lambda v: rank[v] * 2 + 1) if c["kind"] == "str" else (lambda v: v)
        lcases.append("LS %s %s %s" % (zlist([code(v) for v in x]), zlist(r["lin"]), zlist([code(k) for k in keys])))
        lmeta.append(m)
    # ---- accessor
    acases, ameta = [], []
    for c, r in zip(spi, res["spi"]):
        axis = c["time"]
        bv = axis[0] if c["b"] is None else c["b"]
        ev = axis[-1] if c["e"] is None else c["e"]
        main = r["main"]
        m = dict(kind="spi", time=axis, b=c["b"], e=c["e"], groups=c.get("groups"), raised=main["raised"],
                 battr=main.get("battr"), eattr=main.get("eattr"))
        if c.get("groups") is None:
            must_raise = count_window(axis, bv, ev) <= 1
            gl = "None"
        else:
            dist["spi_grouped"] += 1
            labs = [str(v) for v in c["groups"]]
            must_raise = any(count_window([t for t, h in zip(axis, labs) if h == g], bv, ev) <= 1 for g in set(labs))
            rank = {k: i for i, k in enumerate(sorted(set(labs)))}
            gl = "(Some %s)" % zlist([rank[v] for v in labs])
        if must_raise != (main["raised"] is not None):
            spec_fail.append((m, "window with %s steps: raised=%s" % ("<= 1" if must_raise else ">= 2", main["raised"])))
        elif main["raised"] is not None and not main["raised"].startswith("ValueError"):
            spec_fail.append((m, "raised %s instead of ValueError" % main["raised"]))
        dist["spi_raised"] += 1 if main["raised"] else 0
        if main["raised"] is None:
            inwin = [t for t in axis if bv <= t <= ev]
            if main["battr"] != inwin[0] or main["eattr"] != inwin[-1]:
                spec_fail.append((m, "attrs (%s, %s), window is %s..%s" % (main["battr"], main["eattr"], inwin[0], inwin[-1])))
            if main["dims"] != ["y", "x", "time"]:
                spec_fail.append((m, "dims %s" % main["dims"]))
            osc = r.get("outside_scaled")
            if osc and osc["n_changed"]:
                dist["outside_scaled"] = dist.get("outside_scaled", 0) + 1
                ins = np.array(osc["inside"])
                if osc["res"]["raised"] is not None:
                    spec_fail.append((m, "scaling the observations outside the calibration window makes spi raise %s" % osc["res"]["raised"]))
                elif not np.array_equal(np.array(main["vals"])[..., ins], np.array(osc["res"]["vals"])[..., ins]):
                    spec_fail.append((dict(m, data=c["data"]), "scaling observations OUTSIDE the calibration window changes the indices inside it: samples "
                                                              "from outside the window take part in the fit"))
            if c.get("groups") is not None:
                vals = np.array(main["vals"])
                for g, sub in r["subs"].items():
                    mask = np.array(sub["mask"])
                    dist["decompositions"] += 1
                    if sub["res"]["raised"] is not None:
                        spec_fail.append((m, "group %s: ungrouped SPI of the sub-series raised %s" % (g, sub["res"]["raised"])))
                    elif not np.array_equal(vals[..., mask], np.array(sub["res"]["vals"])):
                        spec_fail.append((dict(m, group=g), "group %s: grouped SPI differs from the ungrouped SPI of its sub-series" % g))
                if len(set(str(v) for v in c["groups"])) == 1:
                    pass
                for alt, lab in zip(r["alts"], c["alt_labelings"]):
                    dist["relabelings"] += 1
                    if alt["raised"] is not None or alt["vals"] != main["vals"]:
                        spec_fail.append((dict(m, alt=lab), "result changes under a relabelling of the same partition (%s)" % (alt["raised"] or "values differ")))
        acases.append("AC %s %s %s %s %s %s %s" % (zlist(axis), gl, optlit(c["b"], zlit), optlit(c["e"], zlit),
                                                   blit(main["raised"] is not None), zlit(main.get("battr") or 0), zlit(main.get("eattr") or 0)))
        ameta.append(m)
    r1 = core.eval_cases("C09", "cal", PRE, gcases, "check_calidx", shard=300)
    r2 = core.eval_cases("C09", "lin", PRE, lcases, "check_linspace", shard=300)
    r3 = core.eval_cases("C09", "acc", PRE, acases, "check_accessor", shard=300)
    ctx.cov["evaluations"] = len(gcases) + len(lcases) + len(acases)
    ctx.cov["distinct_nontrivial"] = len(set(gcases)) + len(set(lcases)) + len(set(acases))
    ctx.cov["rule"] = ("seeded random sorted axes (regular and irregular, 3..120 steps, hourly resolution), begin/end on, between, "
                       "before and after steps, 1..36 groups interleaved or blocked, int/str labelings incl. gapped unordered ints "
                       "('10' < '2'); every case is distinct and contains a window edge")
    ctx.notes.update(input_distribution=dist, spec_failures=len(spec_fail),
                     model_vs_impl_mismatches=len(r1["failing"]) + len(r2["failing"]) + len(r3["failing"]))
    ctx.add_samples([gmeta[0], lmeta[1], ameta[0], ameta[-1]])
    ctx.assumptions += ["time axes are strictly increasing; cal_indices are int16 in the code, so axes are shorter than 32768 steps",
                        "string labels enter the Coq model through an order-isomorphic integer code (lexicographic rank)",
                        "numpy searchsorted/unique are modelled by their documented behaviour and compared on every case"]
    for r, tag in ((r1, "calidx"), (r2, "linspace"), (r3, "accessor")):
        for si, lg in r["errors"]:
            ctx.violation("Coq could not evaluate the %s cases" % tag, dict(kind="coq-eval-error", log=lg), found_input=False)
    if spec_fail:
        spec_fail.sort(key=lambda t: len(str(t[0])))
        m, why = spec_fail[0]
        ctx.violation(why, dict(kind="spec", case=m, n_failing=len(spec_fail)))
    else:
        bad = [gmeta[i] for i in r1["failing"]] + [lmeta[i] for i in r2["failing"]] + [ameta[i] for i in r3["failing"]]
        if bad:
            bad.sort(key=lambda m: len(str(m)))
            ctx.violation("model and implementation disagree (Corr/C09.v); the property's spec holds on all explored inputs",
                          dict(kind="correspondence", correspondence="Corr/C09.v", case=bad[0], n_disagree=len(bad)),
                          found_input=False)


def replay(ctx, path):
    import json
    rp = json.load(open(path))
    print(json.dumps(rp.get("case"), indent=1)[:3000])
    print("re-run: VERIF_SEED=%s ./check C09 --tier %s" % (rp.get("seed"), rp.get("tier")))
    return 2
