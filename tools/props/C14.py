"""C14 — no kernel reads or writes outside its arrays on in-contract input (translator-tied: tools/vcgen.py)."""
import json
import os
import re
import sys

from vlib import core


def prove_generated(gen_path):
    """compile gen/C14Gen.v; a failing lemma is cut out and the file re-compiled so that every failing obligation is named"""
    failed = []
    for _ in range(40):
        rc, out, wall = core.coqc(gen_path, 900)
        if rc == 0:
            return failed, None
        m = re.search(r'line (\d+), characters', out)
        if not m:
            return failed, out[-2000:]
        line = int(m.group(1))
        src = gen_path.read_text().splitlines()
        # the lemma that contains this line: "(* comment *)", "Lemma ...", "Proof. vc_tac. Qed."
        i = line - 1
        while i >= 0 and not src[i].startswith("Lemma "):
            i -= 1
        if i < 0:
            return failed, out[-2000:]
        name = src[i].split()[1]
        failed.append(dict(lemma=name, site=src[i - 1].strip("(* )") if i > 0 else "", statement=src[i][:600]))
        src[i] = "(* FAILED: " + src[i].replace("(*", "( *").replace("*)", "* )") + " *)"
        if i + 1 < len(src) and src[i + 1].startswith("Proof."):
            src[i + 1] = ""
        gen_path.write_text("\n".join(src) + "\n")
    return failed, "more than 40 failing obligations"


def run(ctx):
    ok = ctx.proofs(["Props/C14.v"], extra_trusted=[
        "tools/vcgen.py (Python ast -> index-safety / all-written obligations over Z; fail-closed) and its CONTRACTS table (the documented "
        "preconditions of the kernels, hypotheses of every generated lemma)",
        "numba keeps Python's index semantics (negative index counts from the end) and NUMBA_BOUNDSCHECK=1 raises IndexError on every "
        "out-of-range subscript",
        "hand-proved obligations (tinterpolate, mk_sens_slope, mean_grp, gammastd_grp) are about checked models of the loops, tied to the "
        "source by the AST hash of the function (tools/c14_manual.json)"])
    sys.path.insert(0, str(core.VERIF / "tools"))
    import vcgen
    broken = []
    try:
        g = vcgen.Gen(str(core.REPO)).run()
    except Exception as e:  # noqa
        ctx.violation("vcgen could not translate hdc/algo/ops (%s: %s)" % (type(e).__name__, e), dict(kind="translator", theorem="(translation)"),
                      found_input=False)
        return
    auto = [v for v in g.vcs if v["goal"] is not None]
    manual = [v for v in g.vcs if v["goal"] is None and v["manual"]]
    undecided = [v for v in g.vcs if v["goal"] is None and not v["manual"]]
    gen_path = core.GEN / "C14Gen.v"
    gen_path.write_text(g.coq())
    n_lemmas = len(set(v.get("lemma") for v in auto))
    failed, err = prove_generated(gen_path)
    if err:
        broken.append(dict(kind="proof-broken", theorem="gen/C14Gen.v", log=err))
    by_lemma = {}
    for v in auto:
        by_lemma.setdefault(v["lemma"], []).append(v)
    for f in failed:
        sites = by_lemma.get(f["lemma"], [])
        broken.append(dict(kind="vc-unproved", theorem=f["lemma"], statement=f["statement"],
                           sites=["%s:%d `%s` (%s)" % (v["file"], v["line"], v["text"], v["kind"]) for v in sites][:6]))
    for v in undecided:
        broken.append(dict(kind="vc-undecided", theorem="(no lemma could be generated)", sites=["%s:%d `%s` (%s)" % (v["file"], v["line"], v["text"], v["kind"])],
                           reason=v["why"]))
    want = json.load(open(core.VERIF / "tools" / "c14_manual.json"))
    for fn in sorted({v["func"] for v in manual}):
        h = g.ast_hash(fn)
        if want.get(fn) != h:
            broken.append(dict(kind="manual-proof-untied", theorem=", ".join(sorted({v["manual"] for v in manual if v["func"] == fn})),
                               reason="the source of %s changed (AST hash %s, the hand proofs were written for %s); the cursor / scatter "
                                      "obligations of this function are no longer shown" % (fn, h, want.get(fn))))
    missing = [k for k in vcgen.CONTRACTS if k not in g.funcs]
    for k in missing:
        broken.append(dict(kind="translator", theorem="(contract without kernel)", reason="kernel %s named in the contracts table no longer exists" % k))
    ctx.cov["obligations"] += n_lemmas + len(manual) + len(undecided)
    ctx.cov["discharged"] += n_lemmas - len(failed) + len(manual)
    ctx.cov["checker_cmd"] += " && python3 tools/vcgen.py /repo coq/gen/C14Gen.v && coqc -Q coq HDC coq/gen/C14Gen.v"
    per_func = {}
    for v in g.vcs:
        d = per_func.setdefault(v["func"], dict(index=0, mask=0, call=0, shape=0, ret=0, written=0, manual=0))
        d["manual" if v["goal"] is None and v["manual"] else v["kind"]] = d.get("manual" if v["goal"] is None and v["manual"] else v["kind"], 0) + 1
    ctx.notes.update(kernels=len(g.funcs), subscript_sites=len(auto) + len(manual) + len(undecided), generated_lemmas=n_lemmas,
                     hand_proved_sites=len(manual), undecided_sites=len(undecided), failed_lemmas=[f["lemma"] for f in failed],
                     obligations_per_kernel=per_func, constructs_not_interpreted=[list(u) for u in g.unsupported])

    # ---- the implementation, compiled with bounds checking
    os.environ["NUMBA_BOUNDSCHECK"] = "1"
    res, log = core.run_impl("c14_impl.py", dict(seed=ctx.seed, thorough=ctx.thorough), timeout=6000)
    os.environ.pop("NUMBA_BOUNDSCHECK", None)
    dyn_fail = []
    if res is None:
        ctx.violation("the bounds-checked run of the kernels crashed", dict(kind="impl-crash", log=log[-3000:]), found_input=False)
    else:
        ctx.cov["evaluations"] = res["runs"]
        ctx.cov["distinct_nontrivial"] = res["runs"]
        ctx.notes["bounds_checked_runs_per_kernel"] = {k: v["runs"] for k, v in res["per_kernel"].items()}
        ctx.notes["harness_controls"] = res["controls"]
        ctx.notes["out_of_contract_behaviour"] = res.get("info")
        dyn_fail = [f for f in res["failures"] if not f.get("other")]
        other = [f for f in res["failures"] if f.get("other")]
        if not all(res["controls"].values()):
            ctx.violation("the bounds-checking harness is not alive (controls %s)" % res["controls"], dict(kind="harness"), found_input=False)
        if other:
            ctx.violation("a kernel raised on an in-contract input: %s" % other[0]["what"], dict(kind="impl-error", case=other[0], n=len(other)))
        ctx.add_samples([dict(kernel=k, **v) for k, v in list(res["per_kernel"].items())[:3]])
    ctx.cov["rule"] = ("every subscript of the 35 kernels as a lemma over Z (all array lengths); bounds-checked runs: lengths 2, 3, 4, 5, 7, 12 and random "
                       "<= 80 x (plain, gaps, all missing, one valid) x every dtype of each signature, windows 1 / n/2 / n, 1 / 2 / n/3 groups, "
                       "cubes down to 1x1x2, single zone, single observation interpolation, llas of 2 / 3 / 16 entries; outputs pre-filled with two "
                       "poison patterns")
    ctx.assumptions += ["contracts: series length >= 2 (smoothers), srange >= 2 entries, group / zone ids within 0..n-1, 1 <= window <= length, "
                        "contiguous labels with one output per run, template >= 4 days with as many marks as observations, len(groups) = len(series), "
                        "cal_indices of shape (>= num_groups, 2)",
                        "shape mismatches in whole-array expressions raise in numba (not a memory error) and are not obligations",
                        "hdc/algo/ops/whit.py (legacy duplicate, imported by nothing) is not analysed"]
    if dyn_fail:
        f = sorted(dyn_fail, key=lambda d: len(json.dumps(d)))[0]
        ctx.violation("%s: %s" % (f["kernel"], f["what"]), dict(kind="out-of-bounds" if "IndexError" in f["what"] else "unwritten", case=f,
                                                                  broken_obligations=broken[:10], n_failing=len(dyn_fail)))
    elif broken:
        b = broken[0]
        ctx.violation("index-safety obligation no longer proved: %s %s" % (b["theorem"], "; ".join(b.get("sites", [])) or b.get("reason", "")),
                      dict(kind=b["kind"], theorem=b["theorem"], broken_obligations=broken[:20]), found_input=False)


def replay(ctx, path):
    rp = json.load(open(path))
    print(json.dumps(rp.get("case") or rp.get("broken_obligations"))[:3000])
    return 2
