(** C13 - compiled kernels compute what their Python source says.
    The property itself is a correspondence between two executions of one source and is decided by
    running both (tools/props/C13.py).  What is proved here is the part that is semantics rather than
    rounding: the integer accumulators never leave int64 for in-domain sizes, so the compiled
    fixed-width integers and the interpreter's unbounded integers agree. *)
From Coq Require Import ZArith List.
From HDC Require Import Base.Prelude Model.Calib Model.MK Proofs.C13Proofs.
Open Scope Z_scope.

Theorem C13_mk_counters_fit_int64 x :
  Z.of_nat (length x) <= 2 ^ 32 ->
  let s12 := score_counts x (0, 0) in
  0 <= fst s12 < 2 ^ 63 /\ 0 <= snd s12 < 2 ^ 63 /\ - 2 ^ 63 < mk_score_lit x < 2 ^ 63.
Proof. exact (mk_counters_fit_int64 x). Qed.
Print Assumptions C13_mk_counters_fit_int64.

Theorem C13_mk_variance_numerator_fits_int64 n :
  0 <= n <= 1600000 -> 0 <= n * (n - 1) * (2 * n + 5) + (2 * n + 5) < 2 ^ 63.
Proof. exact (mk_variance_numerator_fits_int64 n). Qed.
Print Assumptions C13_mk_variance_numerator_fits_int64.

Theorem C13_autocorr_int_sums_fit_int64 (l : list (Z * Z)) :
  (forall x y, In (x, y) l -> Z.abs x <= 2 ^ 15 /\ Z.abs y <= 2 ^ 15) ->
  Z.of_nat (length l) <= 2 ^ 32 ->
  let s := fold_left istep l (mk 0 0 0 0) in
  Z.abs (iSx s) < 2 ^ 63 /\ Z.abs (iSxx s) < 2 ^ 63 /\ Z.abs (iSxy s) < 2 ^ 63.
Proof. exact (autocorr_int_sums_fit_int64 l). Qed.
Print Assumptions C13_autocorr_int_sums_fit_int64.

Theorem C13_mk_tie_correction_fits_int64 x :
  Z.of_nat (length x) <= 1600000 ->
  let n := Z.of_nat (length x) in
  let tp := zsum (map (fun u => tie_term (zcount u x)) (Calib.sort_uniq x)) in
  0 <= tp <= n * (n - 1) * (2 * n + 5) /\ n * (n - 1) * (2 * n + 5) < 2 ^ 63 /\ 0 <= var_num x <= n * (n - 1) * (2 * n + 5).
Proof. exact (mk_tie_correction_fits_int64 x). Qed.
Print Assumptions C13_mk_tie_correction_fits_int64.
